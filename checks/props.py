"""Which units decide which property (read by tools/check.py)."""

PROPS = {
    "C05": {
        "level": "other",   # deductive verification of NECESSARY conditions only, with one known finding: not a proof-level record of the property
        "verus": ["parser_core"],
        "frame": ["peek_while_is_the_plain_loop"],
        "explanation": "PARTIAL, one direction only, with ONE KNOWN FINDING. Contract-based deductive verification (Verus) of a necessary condition of grammar membership on every grammar function of "
                       "parser/grammar/*.rs: if a function reports no error (and the end of input was not swallowed by an error path), it has added at least as many significant tokens to the tree as the SHORTEST "
                       "sentence of its production has (Arguments >= 5: `(` Name `:` Value `)`; VariableDefinitions >= 6; SelectionSet >= 3; FragmentDefinition >= 7; FieldsDefinition >= 5; DirectiveDefinition >= 5 when entered at "
                       "`directive`; SchemaDefinition >= 6 when entered at `schema`; the type extensions >= 5; ...). An implementation that silently accepts an EMPTY list, a MISSING mandatory token or a half-written "
                       "construct violates the bound of that production, for every input. Second necessary condition, on every grammar function as well: no error means BALANCED BRACKETS -- the numbers of open `{` `(` `[` "
                       "among the significant tokens are the same before and after (value-like productions: unless the input ended inside them, where the enclosing production reports). Third: the grammar's 'but not' "
                       "clauses -- an enum value spelled true / false / null, a fragment called `on`, an operation type other than query / mutation / subscription, a type condition not starting with `on` are always reported. Found this way and repaired in /repo: `f(a)` (argument without `: value`), `{b}` (object field without `: value`), `schema @d` "
                       "(schema definition without root operation types). Known finding (repair changes a pinned snapshot): `schema { query: }` is accepted.",
        "assumptions": ["the Lexer contract (proved in units lexer / lexer_next, shared clause text)", "peek_n / peek_token_n / peek_data_n results are unconstrained (they only steer branches)",
                        "the bounds are conditional on the entry look-ahead where a definition function is entered through select_definition (keyword or description first)"],
        "not_decided": ["the converse direction (a document of the grammar parses WITHOUT errors) -- nothing here notices a rule that wrongly REJECTS",
                        "full grammar membership of error-free documents (token ORDER and KINDS inside a production beyond what the min-length bounds imply; only Type is specified exactly, under C07)",
                        "that the syntax tree contains exactly the reference parser's top-level definitions (tree shape is not modelled)", "the reference parser as oracle"],
    },
    "C14": {
        "level": "proof",
        "verus": ["schema_rules", "types", "impl_args", "subtype", "input_cycles"],
        "explanation": "KERNEL ONLY: three of the type-system validation rules, decided against the specification text rather than against a reference implementation. Verus proves for every input that "
                       "validate_type_system_name reports exactly the names that start with `__` outside the built-in file (rule 'Reserved Names'), and that validate_implementation_field_types reports exactly the "
                       "interface fields whose implementing field type is not a valid implementation type (rule IsValidImplementationFieldType over the schema's subtype relation, any nesting of list / non-null), "
                       "once each and in order. Unit impl_args: validate_implementation_field_arguments appends exactly the reports IsValidImplementation 2.c / 2.d owe, in order -- an interface field argument missing on the implementing field, "
                       "present with a type that is not THE SAME type (invariant: `ID!` vs `ID` is reported), an additional argument that is required (non-null without default) -- for every schema, implementor and list of interfaces. "
                       "Bodies are re-extracted from /repo on every run. Unit input_cycles: the search for circular input-object references (FindRecursiveInputValue) answers Ok only if the checked type lies on NO chain of non-null singular input-object fields leading back to it "
                       "(within the recursion limit of 32), and reports a cycle only if there IS such a chain -- for every schema; a default value on a field does not break the chain.",
        "assumptions": ["IndexMap / IndexSet / HashMap / HashSet shims; Schema::is_subtype's relation is proved in unit subtype; `.iter().find / any` are first-match searches over the code's own predicate closures (kept verbatim); derived PartialEq of ast::Type is structural equality"],
        "not_decided": ["the property as stated: agreement of the WHOLE of schema validation with the reference implementation (graphql-js via graphql-core) -- every other rule (root operation types, field / argument / "
                        "directive definitions, unions, enums, input objects, transitive interfaces) and the documented differences; no oracle exists inside a contract"],
    },
    "C15": {
        "level": "proof",
        "verus": ["schema_rules", "types", "impl_args", "subtype", "diagnostics", "input_cycles"],
        "explanation": "KERNEL ONLY: nine of the mechanisms behind 'acceptance implies these invariants'. Verus proves for every input: validate_type_system_name reports a name exactly when it starts with `__` and "
                       "is not located in the built-in file (Reserved Names); BuiltInScalars::record_type_ref says whether a name is a built-in scalar and records it as used-and-defined / used-and-undefined "
                       "according to the schema's type map, all_used compares the counts (the bookkeeping that decides which built-in scalars stay in a valid schema's type map); validate_implementation_field_types "
                       "reports exactly one diagnostic, in order, for every implemented-interface field whose type the implementor's field does not satisfy (IsValidImplementationFieldType), none skipped; validate_implementation_field_arguments (unit impl_args) does the same for the argument contract (missing argument, argument of a different type, additional required argument). "
                       "validate_schema itself: its effect on the type map is `types_after` -- every definition stays except built-in scalar definitions nothing refers to; a built-in scalar that is referred to but not defined is inserted "
                       "as the table's definition -- including that the `all_used` shortcut is harmless (set cardinalities) and that every used-and-undefined name is inserted. Unit subtype: Schema::is_input_type / is_output_type == IsInputType / IsOutputType "
                       "(wrappers looked through; Scalar, Enum, InputObject resp. everything but InputObject; an undefined name is neither) -- the question the field / argument / variable validators ask to decide 'referenced types have the right kind' -- and Schema::is_subtype == the possible-type relation. Unit diagnostics: DiagnosticList::into_valid_result / into_result_with / into_result -- `Valid(..)` is constructed exactly when no validator pushed a diagnostic, "
                       "otherwise every diagnostic is handed back with the partial value. Unit input_cycles: the search for circular input-object references (FindRecursiveInputValue) answers Ok only if the checked type lies on NO chain of non-null singular input-object fields leading back to it "
                       "(within the recursion limit of 32), and reports a cycle only if there IS such a chain -- for every schema; a default value on a field does not break the chain.",
        "assumptions": ["HashMap / HashSet / IndexMap / IndexSet behave as maps / sets / sequences keyed by the name's text (shims); retain keeps exactly the entries its closure accepts", "Schema::is_subtype's relation is no longer assumed (unit subtype)",
                        "the per-definition validators called by validate_schema are opaque; assumed of each: it calls record_type_ref for exactly the type references of the definition it is given, and leaves the table alone"],
        "not_decided": ["the property's main clause: that ACCEPTANCE by the whole of validate_schema implies every listed invariant (root types, referenced types exist with the right kind, argument contracts, "
                        "transitive interfaces): would need contracts on every validator"],
    },
    "C16": {
        "level": "proof",
        "verus": ["schema_rules"],
        "explanation": "KERNEL ONLY. Verus proves on the extracted validate_schema that its effect on the type map is the function `types_after` of the map before and of the set of type names the schema refers to: every definition "
                       "stays except built-in scalar definitions that nothing refers to, and a built-in scalar that is referred to but missing is inserted as the table's definition (so: 'if a field referencing a previously removed "
                       "built-in scalar is added, re-validation restores exactly that scalar' -- lemma_referenced_scalar_is_restored). lemma_revalidation_is_identity: applied to its own result, with unchanged references, types_after "
                       "changes nothing ('leaves it identical, including which built-in scalars are present').",
        "assumptions": ["as for C15 (opaque validators that record exactly the definition's type references; collection shims)",
                        "that removing unreferenced built-in scalar definitions / inserting referenced ones does not change the set of type names the schema refers to (scalar definitions contain no type references): premise of the identity lemma, not proved"],
        "not_decided": ["that re-validation SUCCEEDS (reports nothing): every validator would need a contract", "re-validation of executable documents", "that Valid<Schema>::into_inner / validate hand the same schema through unchanged"],
    },
    "C17": {
        "level": "proof",
        "verus": ["types", "field_merging", "diagnostics"],
        "explanation": "KERNEL ONLY (two mechanisms of the operation-validation rules). (1) Field Selection Merging, the type half of SameResponseShape: Verus proves for every schema and every pair of field types that "
                       "same_output_type_shape answers Ok exactly when steps 3-6 of the spec's SameResponseShape hold (Non-Null on both or neither at EVERY wrapper level, List on both or neither, same leaf type, else both composite), "
                       "and that its unwrapping loop terminates. (3, unit diagnostics) `Valid<ExecutableDocument>` is constructed exactly when no rule pushed a diagnostic (into_valid_result). (2) The rule 'All Variable Usages Are Allowed'. Verus proves for every pair of type references, every default value and every list of variable "
                       "definitions that is_variable_usage_allowed == IsVariableUsageAllowed (including the null default), Type::is_assignable_to == AreTypesCompatible, and that validate_variable_usage reports "
                       "exactly when the argument is a variable that is defined and whose usage the rule forbids. Bodies are re-extracted from /repo on every run.",
        "not_decided": ["every other operation-validation rule (the rest of field merging: which pairs of fields are compared, argument equality, the recursion into sub-selections; value literals, fragments, directives, subscriptions, arguments): differential against graphql-js, no oracle inside a contract",
                        "that validate_variable_usage is called for every variable usage (value.rs / argument.rs walk the document through iterators)"],
    },
    "C06": {
        "level": "proof",
        "verus": ["unescape", "lines", "string_value"],
        "technique": "Verus contracts on the extracted unescape_string and GraphQLLines::next (unbounded), with a lemma tying the precondition to the C03 string grammar",
        "explanation": "KERNEL ONLY. Unit unescape: Verus proves on the extracted unescape_string, for every lexically valid quoted-string body of any length, that the result equals the "
                       "spec's static semantics of StringValue (every StringCharacter contributes itself, the character of its EscapedCharacter per the spec's table, or the code point of its four hex digits) and that "
                       "no unwrap() can panic (to_digit on the four hex digits, char::from_u32 on a non-surrogate value, no overflow of `(acc << 4) + digit`). The precondition is not an ad-hoc one: the lemma "
                       "lemma_lexer_accepts_only_decodable_strings proves that every text satisfying is_quoted_string -- the very predicate (shared text of unit lexer) that C03 establishes for each StringValue token "
                       "the lexer returns without error, now including the exclusion of surrogate escapes -- is a quote, a body satisfying this precondition, a quote. "
                       "Unit lines: GraphQLLines::next (step 1 of BlockStringValue, `split_lines`) yields the text before the first LF / CR, continues after the terminator with CR LF skipped as ONE terminator, "
                       "yields one line for a text without terminators (also the empty text) and then finishes; every byte-offset slice is on a char boundary. "
                       "Unit string_value: `From<&cst::StringValue> for String` -- given that the token text is a StringValue the lexer accepted (C03's postcondition, shared text) -- never slices out of range or off a char boundary, "
                       "never sends a quoted literal down the block branch, calls unescape_string with its precondition established (the composition lemma used at the real call site), and returns decoded(body) for quoted literals. "
                       "Bodies are re-extracted from /repo on every run.",
        "assumptions": ["Chars::next yields the characters in order; String::push appends; char::to_digit(16) is the hex value; char::from_u32 is Some exactly for non-surrogate values <= 0x10FFFF and converts back (std documentation, shims)",
                        "listed rewrites in unit unescape: the local closure `unicode` is beta-reduced at its single call; `iter.by_ref().take(4).fold(0, f)` is replaced by its definition (at most four `next()` calls folded with f, f's body kept verbatim)",
                        "memchr2 finds the first of two ASCII bytes and an ASCII byte is a whole character in UTF-8; byte-range slicing / str::get on char boundaries (shims); &str values with equal characters are equal (axiom)"],
        "not_decided": ["block strings beyond line splitting: common indentation, removal of blank leading / trailing lines, the escaped triple quote (unescape_block_string, replace_into: iterator adapter chains and memmem -- outside Verus's subset; Kani cannot execute memchr's runtime CPU detection)",
                        "that the syntax tree hands `From<&cst::StringValue> for String` the lexer's token text (rowan; C02), and the copies into ast::Value / descriptions in apollo-compiler (from_cst.rs)"],
    },
    "C09": {
        "level": "proof",
        "verus": ["serialize_string", "unescape"],
        "technique": "Verus contract on the extracted serialize_string_value (unbounded), composed by checked lemmas with the C06 decoder contract and the C03 string grammar",
        "explanation": "KERNEL ONLY (the quoted form). Verus proves on the extracted serialize_string_value, for every Unicode string, every position and configuration: whenever the function does not take the "
                       "block-string branch, what it writes is a quote, a body, a quote, where the body is a lexically valid quoted-string body (valid_body) whose value under the static semantics of StringValue "
                       "(decoded -- the shared specification text of unit unescape, C06) is exactly the string that was serialized. Unit unescape proves that unescape_string computes `decoded` on such bodies and that the "
                       "lexer's string grammar (C03) implies valid_body; so serialize -> lex -> decode is the identity for the quoted form, each link over the extracted code of the function that implements it. "
                       "The postcondition is the property (reads back as the same string), not one particular escaping: escaping more characters, or differently but correctly, still verifies.",
        "assumptions": ["State::write appends to the output; `{:04X}` prints a byte as four upper-case hex digits; str::find returns the byte offset of the first char satisfying the predicate; "
                        "str::split_at / byte-range slicing on char boundaries; the first UTF-8 byte of an ASCII char is that char (shims); listed rewrites method -> shim function, the find predicate kept verbatim",
                        "the composition with the lexer is by lemma over the shared string grammar, not by running the lexer on the output"],
        "not_decided": ["the block-string form: can_be_block_string and serialize_block_string (str::split / trim_start_matches / iterator adapters), i.e. every description and every multi-line value when newlines are enabled",
                        "that values, default values and descriptions reach serialize_string_value unchanged from every nesting position (callers), and the parser / AST conversion on the way back (C02, C06's undecided wrapper)"],
    },
    "C18": {
        "level": "proof",
        "verus": ["schema_lookup", "executable_ctor", "fragment_cycles"],
        "explanation": "KERNEL ONLY (three parts). Unit fragment_cycles -- 'fragment spreads are acyclic in a valid document': validate_fragment_cycles / detect_fragment_cycles, for every document: if the search from a fragment reports nothing, that fragment "
                       "lies on NO chain of fragment spreads leading back to it (spreads anywhere in a selection set, through fields and inline fragments). The proof is the white / grey / black argument: the set of marked fragments is closed under spreading "
                       "except through the current path, the root is never marked, and a chain that starts at the root therefore stays inside the marked set and cannot return (lemma_nothing_reported_means_no_cycle). Unit executable_ctor: the constructors through which every field and inline fragment gets its annotations -- SelectionSet::new_field is Ok exactly when the parent type has that field "
                       "or meta-field and then carries exactly that definition (Schema::type_field's proved contract, shared text), with a sub-selection set typed by the inner named type of the definition's type; Field::new / Field::ty; "
                       "an inline fragment's selection set is typed by its type condition, or by the parent's type when it has none (new_inline_fragment, with_type_condition, without_type_condition). Unit schema_lookup: Schema::type_field, the lookup through which every field of an executable document gets the schema's definition of that field on its parent type. Verus proves for every schema, "
                       "type name and field name: the explicit field of an object / interface type if there is one; otherwise __typename on object, interface and union types only; otherwise __schema / __type on the "
                       "query root type only; otherwise Err(NoSuchType) iff the type is undefined, Err(NoSuchField(type name, type definition)) else. The body is re-extracted from /repo on every run.",
        "assumptions": ["IndexMap::get / get_key_value find the entry keyed by the text; MetaFieldDefinitions::get() returns the three implicit definitions; &str values with equal characters are equal (axiom)"],
        "not_decided": ["everything else of C18: that from_ast calls these constructors with the right parent type for every selection (the AST conversion loop), "
                        "the other validity guarantees (variables defined, leaf / composite sub-selections), that validate_fragment_cycles is called for every fragment of the document, the root_fields / all_fields iterators"],
    },
    "C26": {
        "level": "proof",
        "verus": ["execution", "collect_fields", "selection_set", "arguments", "argument_object", "complete_list", "complete_value"],
        "explanation": "The executor's recursive core, function by function (ExecuteSelectionSet, CollectFields, ExecuteField, CoerceArgumentValues, CompleteValue for leaves / lists / objects of abstract types, null propagation, error paths), each unit assuming exactly the clause text its neighbour proves. Unit collect_fields: Verus proves that the executor's collect_fields computes the spec's CollectFields -- for every schema, document (fragments may even be cyclic), variables map, "
                       "object type and selection set, with visitedFragments / groupedFields threaded through as in the spec: @skip / @include, response keys (alias else name) grouped in order of first appearance, each named fragment expanded at most once and only if it exists and "
                       "DoesFragmentTypeApply, inline fragments unless their type condition does not apply. The specification function carries a fuel for fragment expansion; the contract holds for EVERY fuel >= the number of defined-but-unvisited fragments "
                       "(each expansion marks one more fragment visited, so such fuel cannot run out: no acyclicity assumption). Unit execution: Verus proves, for every schema / selection / variables map, three decision functions of the executor against the specification text: "
                       "try_nullify (Handling Field Errors: a value passes through; a propagated null stops at the first nullable position and continues through non-null ones, for every Type), "
                       "does_fragment_type_apply == DoesFragmentTypeApply (same object type / objectType implements the interface / objectType is a member of the union; false for anything else), "
                       "eval_if_arg == the value of the `if` argument of @skip / @include (Boolean literal, or a variable whose coerced value is a JSON boolean; nothing otherwise), and Selection::directives. "
                       "Unit selection_set: execute_selection_set == ExecuteSelectionSet over the groups CollectFields returns, in order: a field the object type defines is executed at path + [response key] and its value inserted under the response key, "
                       "a propagated null makes the whole selection set propagate (so data is null when it reaches the root call), a field skipped for partial execution or not defined by the type is left out; its calls satisfy execute_field's precondition "
                       "because no group of collect_fields is empty (proved in unit collect_fields). "
                       "Unit arguments: coerce_argument_values == CoerceArgumentValues per argument definition in order (a variable with a value is used as is unless it is null for a non-null type; a literal null for a non-null type is a field error, "
                       "any other literal is coerced; without a value the default is used, else a non-null type is a field error, else there is no entry); a failure records exactly one error, at the field's path, and a success records none. "
                       "Unit argument_object: coerce_argument_value (literal coercion) satisfies the contract unit arguments takes for it -- a failure records exactly one error at the field's path, a success none -- and: null is a field error for a non-null type and null otherwise; "
                       "a nested variable yields its runtime value (null or missing is a field error for a non-null type); for an input-object type a non-object literal or a key that is not a field of the type is a field error, and then per field of the type in order "
                       "a PROVIDED value (the literal has the entry and it is not a variable without a runtime value) is coerced to the field's type, otherwise the default value, otherwise a field error for a non-null type, otherwise no entry. "
                       "Unit complete_list (async stripped as a listed rewrite; the resolver's item stream is a finite sequence): complete_list_value computes CompleteValue for list types with the null-propagation rules for EVERY list of items "
                       "(an item error makes a nullable item null, a non-null item nulls the list if the list is nullable and propagates otherwise; every item is completed with the ITEM type at path + [index]); "
                       "non-null positions are never null (the list itself, and no item of a list of non-null); execute_field == coerce arguments, resolve, complete at the field's path, then handle the field error against the field definition's type; "
                       "path_to_vec gives the root-first path and GraphQLError::field_error stores it; every error recorded while completing a list / executing a field lies at or below that position, a resolver error exactly at it. "
                       "Unit complete_value: complete_value itself (the local macro field_error! expanded with the body found in the source; dyn objects as opaque structs with a type_name()), proved against the contract complete_list assumes for it, "
                       "complete_list_value entering by the clause text complete_list proves: null is a field error for a non-null type and null otherwise; a non-null type never completes to null; a list is completed as a list with the same type, path, mode and fields; "
                       "a leaf or object for a list type is a field error; an object whose type_name() is T is executed as object type T exactly when T is an object type of the schema that is the named type / implements the named interface / is a member of the named union "
                       "(ResolveAbstractType), and is a field error otherwise; every such field error is exactly one error recorded at the position's path; Schema::get_object returns the object type of that name; complete_leaf_value == Result Coercion at the level of serde_json's value kinds "
                       "(an enum value is a string naming a value of that enum; Int an integer in the 32-bit range; Float / String / Boolean a value of that JSON kind; ID a string or an integer; a custom scalar anything; a composite type never), the value is returned unchanged or exactly one field error is recorded at the path. "
                       "Bodies are re-extracted from /repo on every run.",
        "assumptions": ["IndexMap / IndexSet / JsonMap lookups behave as maps / sets keyed by the name's text; DirectiveList::get returns the first directive with that name; specified_argument_by_name the argument with that name (shim contracts)",
                        "complete_list: complete_value is assumed to be a function of its arguments (named `completed`) that only adds errors at or below its path and never yields null for a non-null type -- the last two are proved for the real complete_value in unit complete_value, "
                        "which in turn takes complete_list_value and execute_selection_set (opaque) by contract; termination of this mutual recursion is not checked; serde_json's as_str / as_i64 / is_i64 / is_f64 / is_string / is_boolean are modelled on a Value split by kind; "
                        "the resolver call is an opaque function of its arguments; coerce_argument_values is taken as a function of field and definition whose errors lie at or below the field (unit arguments proves the latter and what the function is, given opaque literal coercion); the resolver's list yields finitely many (< usize::MAX) items; await points are plain calls; "
                        "ExecutionContext.errors (&mut Vec) is held as the Vec; serde_json's From<Vec<Value>> is Value::Array; Vec::reverse / Enumerate::next have their std meaning"],
        "not_decided": ["the rest of the main clause: the list case of coerce_argument_value, graphql_value_to_json (scalar / enum literals, default values), coerce_variable_values (decided under C28), the root (data == null exactly when a null reaches it), "
                        "what an error message says, what the result is when the resolver's iterator itself fails for an item of nullable type",
                        "termination of collect_fields' recursion (exec_allows_no_decreases_clause; it follows from the counting argument of the contract but is not checked)",
                        "that the units' specifications compose into ONE reference executor (each call of a neighbouring function is named by an uninterpreted function of its arguments, not unfolded); the resolver objects; Execution::execute_* (operation lookup, root type, `data = result.ok()`)",
                        "argument_object / arguments: the list case of literal coercion and graphql_value_to_json are opaque; what `some key is not a field of the type` means below the shim"],
    },
    "C28": {
        "level": "proof",
        "verus": ["variables", "variable_value", "variable_object"],
        "explanation": "THREE KERNELS of CoerceVariableValues. Unit variables: coerce_variable_values, for every operation and provided JSON map, goes through the variable definitions in order -- a provided value (also an explicit null) is coerced to the variable's type "
                       "and stored, a failure fails the request; otherwise the default value if there is one; otherwise a request error if the type is non-null; otherwise NO entry -- so the result contains exactly the provided or defaulted variables. "
                       "Unit variable_value: coerce_variable_value, for every schema, type and JSON value: null is an error for a non-null type and null otherwise; an undefined type or an object / interface / union type is an error; "
                       "Int is an integer within 32 bits; Float a JSON float or an integer of magnitude below 2^53; String / Boolean a value of that JSON kind (no coercion between strings and numbers); ID a string or an integer; a custom scalar anything; "
                       "an enum a string naming one of its values; an accepted value is returned unchanged and everything else is an error. "
                       "Unit variable_object (a second pass over the same function): for an input-object type, a value that is not a JSON object is an error, a key that is not a field of the type is an error, and then the fields of the type in order -- "
                       "a provided value (also null) is replaced by its coercion to the field's type, otherwise the default value is inserted if there is one, otherwise a non-null field type is an error, otherwise no entry. "
                       "Bodies are re-extracted from /repo on every run.",
        "assumptions": ["variables: coerce_variable_value and graphql_value_to_json enter as functions of their arguments (both are pure); serde_json's Map::get_key_value is a lookup by key and Map::insert an uninterpreted map_insert on the entries",
                        "variable_value: the list arm and the input-object arm are REPLACED by opaque calls (listed rewrites); variable_object keeps the input-object arm, with its recursive calls entering as the function-of-its-arguments `variable_coerced`, "
                        "`get_mut` + assignment written as `get` + `insert` under the same key, and serde_json's Map spoken about only through uninterpreted entries_has / entries_at / map_insert; the list arm stays opaque in both; "
                        "serde_json's as_str / as_i64 / as_f64 / is_* are modelled on a Value split by kind; the floating-point comparison |f| < 2^53 - 1 is opaque; Option::is_some_and has its std meaning; &str values with equal characters are equal (axiom)"],
        "not_decided": ["list coercion (single values wrapped), graphql_value_to_json (default values), request::coerce_variable_values' conversion of the error, what `some key is not a field of the type` means below the shim",
                        "that the per-unit specifications compose into one recursive CoerceVariableValues (nested calls are named, not unfolded); termination of the recursion"],
    },
    "C29": {
        "level": "proof",
        "verus": ["types", "subtype"],
        "explanation": "Verus proves, for every Type value of any nesting, that Type::is_assignable_to == AreTypesCompatible, "
                       "is_variable_usage_allowed == IsVariableUsageAllowed (incl. null default) and "
                       "is_valid_implementation_field_type == IsValidImplementationFieldType over the relation computed by Schema::is_subtype, and (unit subtype) that this relation IS the spec's: the abstract type is a union with that member, "
                       "or an interface that the (defined, object or interface) type declares it implements; "
                       "and for the two call sites: validate_variable_usage reports (one diagnostic, Err) exactly when the argument is a variable that is defined and whose usage the rule forbids; "
                       "validate_implementation_field_types reports, in order, exactly one diagnostic for every (implemented interface that exists, field of it that the implementor also has) whose types the rule forbids -- "
                       "no pair is skipped or reported twice. Bodies are re-extracted from /repo on every run.",
        "assumptions": ["IndexMap / IndexSet iteration visits the entries in insertion order and `get` finds the first entry with that key (shims FieldMap / NameSet; the for loops are desugared to indexed loops over them)",
                        "Schema::get_interface returns the interface definition with that name, if any"],
        "not_decided": ["the callers of these two call sites (validate_arguments / validate_object_type_definition ...) pass the right definitions"],
    },
    "C25": {
        "level": "proof",
        "verus": ["maxdepth"],
        "explanation": "Verus proves for every selection-set tree and every (acyclic) fragment map, with no bound on size or depth, that "
                       "check_selection_set returns Err iff depth_so_far + D >= 3 and Ok(depth_so_far + D) otherwise, where D is the nesting depth of "
                       "fields/interfaces/possibleTypes/inputFields with named and inline fragments expanded; check_max_depth rejects iff D(operation) >= 3. "
                       "The memo table is covered by the invariant memo_ok (every entry equals D of that fragment's body).",
        "not_decided": ["Valid<ExecutableDocument> implies fragment acyclicity (precondition `acyclic`, guaranteed by validation, assumed)",
                        "HashMap/IndexMap get/insert behave as maps keyed by the name's text (external_body shims)",
                        "partial_execute / callers actually call check_max_depth"],
    },
    "C04": {
        "level": "proof",
        "verus": ["limits", "parser_core", "parse_common", "lexer_next", "lexer_strings", "error"],
        "frame": ["only_lexer_next_makes_limit_errors", "peek_while_is_the_plain_loop"],
        "explanation": "Verus proves the LimitTracker contract (reached <=> current+1 > limit; balanced current; high-water mark) and the token-limit "
                       "contract of Lexer::next (at most `limit` calls of Cursor::advance; a limit error item iff the limit is exhausted, after which the lexer "
                       "is finished and returns None forever); on the parser primitives and on EVERY grammar function (all of parser/grammar/*.rs, document() and the three entry points): every recursion-guarded function "
                       "(ty::parse, selection_set, field_set, object_field, list_value) checks before it descends, selection lists are only parsed inside a counted nesting level, limit_err records a LIMIT error, "
                       "document()'s `assert_eq!(recursion_limit.current, 0)` never fires; the tree text only grows at the end and stays a prefix of the input, errors are only appended and frozen once "
                       "the token limit was hit (no error after the token-limit error), recursion bookkeeping is balanced and never exceeds the limit. "
                       "On the compiler side (unit parse_common) Verus proves for apollo_compiler::parser::Parser::parse_common, for every parse closure: the apollo-parser Parser is built from exactly the "
                       "source text and the configured limits, and after the call recursion_reached / tokens_reached equal the high-water marks of the returned tree, whatever an earlier call left there. "
                       "'A limit error comes from Lexer::next only' is no longer a syntactic side condition: unit error proves on the real constructors that with_loc / set_data never make a limit error and Error::limit always does, "
                       "unit lexer_strings proves that no call of Cursor::advance / eof / done returns one, and unit lexer_next (the real Lexer::next) assumes exactly that clause (the frame check stays as a second line of defence).",
        "not_decided": ["global 'recursion-limit error iff nesting depth exceeds r' as one statement over the token stream (each guarded function is proved to check, balance and never exceed the limit; the iff is not composed)",
                        "that the tree's LimitTracker values are the parser's (finish_document / finish_type / finish_selection_set hand them over unchanged: syntax_tree.rs, rowan; shim contract)",
                        "'limit error iff the unlimited token stream is longer than n' needs the unlimited stream as a ghost; only the per-call iff is proved"],
    },
    "C31": {
        "level": "proof",
        "kani": ["apollo-compiler/parser.rs"],
        "frame": ["file_id_counter_single_fetch_add"],
        "technique": "contract harnesses (assume/assert) on the real crate, discharged by Kani/CBMC over the full u64 domain, loop-free",
        "explanation": "Kani proves on the real crate, for all 2^63 identifiers and both tags, unpack(pack(tag,id)) == (tag,id); and the sequential contract of "
                       "FileId::new from every counter value (returns the old counter, advances it by one, never BUILT_IN/NONE/0, bit 63 clear, wraps to INITIAL). "
                       "Pairwise distinctness under concurrency follows from this contract only with the atomicity of the single fetch_add (assumed; checked syntactically).",
        "not_decided": ["interleavings of FileId::new across threads (atomicity of AtomicU64::fetch_add assumed; Kani has no threads)",
                        "concurrent parse/validate/introspect equivalence (schedules)"],
    },
    "C32": {
        "level": "proof",
        "verus": ["smith_names", "smith_keywords"],
        "explanation": "TWO KERNELS: DocumentBuilder::limited_string, the source of every generated name: what it returns is non-empty and not a reserved word AFTER its trailing underscores were trimmed (unit smith_keywords); "
                       "DocumentBuilder::type_name, from which every generated type definition gets its name. Verus proves on the extracted body that the returned name is not among the type names used so far "
                       "(including those recorded from a parsed schema) and that it is recorded as used; on failure of the randomness source nothing is recorded.",
        "assumptions": ["smith_keywords: the byte generator inside limited_string is replaced by an opaque call (any string); trim_end_matches / is_empty / to_string / slice contains have their std meaning", "HashSet<String> behaves as a set of texts; in type_name limited_string is opaque; the candidate text `{base}{suffix}` is opaque (write! shim)",
                        "the loop tries fewer than 2^64 candidates (explicit shim in front of `suffix += 1`; with termination it needs a pigeonhole argument over the finite set of used names: not proved)"],
        "not_decided": ["the property as stated: for every input byte string the WHOLE generator returns a document that parses without syntax errors and validates; determinism; operations valid against a parsed schema",
                        "termination of type_name's and limited_string's loops; that limited_string's characters are name characters"],
    },
    "C33": {
        "level": "other",
        "verus": ["smith_response", "smith_collect", "smith_concrete", "smith_keys", "smith_lists", "execution"],
        "explanation": "KERNELS, ONE KNOWN FINDING (level `other`: one obligation fails on the unchanged tree and is listed in known_findings.json). Unit smith_lists: ResponseBuilder::generate_field_value returns, for a field whose type has at most one list level, "
                       "a list exactly when the type is a list type (given that the four generators it calls return flat values / lists of flat values); for a type with NESTED lists the clause `nested_list_types_get_nested_lists` FAILS: `[[Int!]!]!` gets a flat list -- the known finding. "
                       "Unit smith_keys: ResponseBuilder::selection_set, unless a custom generator takes over, returns an object with EXACTLY the response keys collect_fields returned for the chosen concrete type, in that order, "
                       "and `__typename` is that concrete type. Unit smith_concrete: ResponseBuilder::concrete_type chooses, for a union, one of its members; for an interface, an OBJECT type of the schema that implements it (the interface itself only when the count of such types is 0); "
                       "otherwise the type itself (the two scans keep their predicates as closure bodies; that the second scan finds the idx-th entry the first one counted is an explicit assumption). ResponseBuilder::type_condition_matches, the test that decides which fragments contribute response keys for the chosen concrete object type. Verus proves on the extracted body, for every schema, "
                       "object type and type condition, that it equals the spec's DoesFragmentTypeApply -- the same specification function (shared text) against which the executor's does_fragment_type_apply is proved (unit execution, C26): "
                       "the generator and the executor agree on which fragments apply. Unit smith_collect: ResponseBuilder::collect_fields, which decides the response keys of every generated object -- a field goes to the group of its response key "
                       "(alias, else name), groups in order of first appearance; a named or inline fragment contributes the groups of its selection set, merged by APPENDING to existing groups, exactly when it exists and its type condition applies -- "
                       "for every fuel that is enough for the fragment expansion (a recursive predicate; that some fuel is enough for an acyclic document is not proved).",
        "assumptions": ["Name equality is equality of the text; IndexMap / IndexSet lookups by text (shims of unit execution); `concrete` names an object type stored under its own name (what concrete_type hands over: precondition)",
                        "listed rewrite: `members.iter().any(|m| m.name == *concrete)` -> `members.contains(concrete)`",
                        "smith_concrete: the second scan finds the idx-th entry the first one counted (`.expect_counted()`: explicit, unproved); choose_index(n) returns an index below n; a union's members are object types (schema validity)",
                        "smith_keys: concrete_type / collect_fields / generate_field_value / should_be_null are opaque calls; serde_json's Map::insert of distinct keys is an append",
                        "smith_lists: leaf_field and selection_set return a value that is not an array, repeated_leaf_field and repeated_selection_set an array of such values (read off those four functions, default generators only; not proved)"],
        "not_decided": ["everything else of C33: null positions, enum values, scalars of the right JSON kind, custom generators, partial data, termination of collect_fields, "
                        "and that executing the operation against the generated data reproduces it (the executor's units under C26 and these kernels are not composed)"],
    },
    "C10": {
        "level": "proof",
        "verus": ["name", "numbers"],
        "kani": ["apollo-compiler/name.rs", "apollo-compiler/ast_impls.rs"],
        "technique": "Verus contracts on extracted Name code (unbounded) + bounded Kani harnesses for the numeric literal checks and the unsafe constructors",
        "explanation": "Verus proves for every string of any length that Name::is_valid_syntax equals the Name grammar and that Name::new / new_static / "
                       "check_valid_syntax return Ok iff it holds (the same function serves serde deserialization). Unit numbers: From<i32> for IntValue and From<f64> for FloatValue return text that matches the "
                       "IntValue / FloatValue grammar for every i32 / every finite f64 (`.0` appended exactly when the printed number has no fractional part), GIVEN the assumed shape of what std prints "
                       "(optional `-`, digits without leading zero, optional `.digits`, never an exponent). Bounded stand-ins (Kani, fixed lengths, "
                       "not counted as proved): IntValue/FloatValue::valid_syntax equal the IntValue/FloatValue grammar on all ASCII strings up to length 3 "
                       "(5 in thorough); the unsafe constructors read back the bytes supplied.",
        "assumptions": ["what i32::to_string / f64::to_string print (core::fmt; shape assumed: see unit numbers), str::contains(char), String::push_str"],
        "not_decided": ["that the literal made from a number converts back to the SAME number (round-trip guarantee of std's float printing and parsing; only the syntax of the literal is decided)",
                        "Type Display/parse round-trip (fmt + full parser)",
                        "numeric syntax beyond the stated length bound; non-ASCII input to the numeric checks",
                        "that a byte string of valid UTF-8 matches [_A-Za-z][_0-9A-Za-z]* as chars iff it matches as bytes (all accepted bytes are ASCII: lemma_name_is_ascii)"],
    },
    "C11": {
        "level": "proof",
        "verus": ["linecol", "parser_core"],
        "kani": ["apollo-compiler/parser.rs"],
        "technique": "Verus loop invariants on the extracted byte loop (unbounded) + complete Kani harness for Name location packing",
        "explanation": "Verus proves for every source text and offset that SourceFile::get_line_column returns None iff the offset is out of bounds, "
                       "line = 1 + number of GraphQL LineTerminators (LF, CRLF as one, CR) ending at or before the offset, and column = 1 + number of UTF-8 "
                       "leading bytes since the line start; get_line_column_range does the same for both ends; SourceSpan::offset / end_offset / line_column / line_column_range "
                       "report the position of the span's own start / end offsets in the span's own file (None iff the file is unknown or an offset is out of bounds). Kani proves for all u32 offsets / 63-bit file ids that a name's location reads back exactly the "
                       "span supplied and covers exactly the name's text. Locations are rowan text ranges, i.e. sums of the lengths of the tokens put into the tree before the node: they are source offsets exactly when no text the lexer handed out is missing from the tree. "
                       "That premise is the text-conservation contract of Parser::next_token and the leading-trivia clause of standalone_ty (unit parser_core, shared with C02), which therefore also count here.",
        "not_decided": ["that from_cst attaches the right span to every node (whole AST conversion)",
                        "diagnostic / JSON rendering (ariadne keeps its own line numbering in rendered text reports)",
                        "leading-byte count == scalar-value count (definition of UTF-8; assumed)"],
    },
    "C30": {
        "level": "model_checking",
        "kani": ["apollo-compiler/name.rs", "apollo-compiler/node.rs", "apollo-compiler/parser.rs"],
        "technique": "Kani/CBMC on the real unsafe code with a reference-count representation invariant asserted after every step; bounded histories",
        "explanation": "Representation invariant of Name (strong count of the backing Arc<str> == 1 + live heap names) checked after every step of every "
                       "6-step (8 in thorough) history over a pool of 3 names, with CBMC's pointer checks (use after free, double free, out of bounds) on the real "
                       "unsafe code; static names never touch a count; location/text read back; equality and hashing ignore locations; Node copy-on-write "
                       "leaves clones unchanged. Histories are bounded, so this is a bounded stand-in, not a proof.",
        "not_decided": ["interleavings across threads (unsafe impl Send/Sync): Kani has no threads", "histories longer than the stated bound", "leak detection beyond the counted Arc"],
    },
    "C03": {
        "level": "proof",
        "verus": ["lexer", "cursor", "lexer_numbers", "lexer_strings"],
        "frame": ["cursor_fields_written_only_by_primitives"],
        "kani": ["apollo-parser/lexer.rs", "apollo-parser/cursor.rs"],
        "technique": "Verus contract on the extracted lexer state machine (Cursor::advance) over a ghost cursor model (unbounded) + Kani loop-free harnesses over every char for the lookup tables",
        "explanation": "Verus proves on the whole extracted state machine Cursor::advance / eof / done / unterminated_spread_operator, for every source text: each call hands out exactly the next "
                       "piece of the input (token text or error fragment; concatenated in order they reproduce the input), every item except EOF is non-empty (so lexing terminates), EOF "
                       "only at the end, no cursor operation is used outside its precondition (eatc never with a pushed-back char, drain never on an empty source, the byte-range slices and "
                       "the from_str_radix unwrap of the \\uXXXX check never panic), and the loop terminates. Every successfully returned Name / Int / Float / Comment / whitespace / punctuator / "
                       "spread token has the right kind for its text under the October 2021 lexical grammar and is maximal (Name not followed by NameContinue; numbers not followed by "
                       "Digit, `.` or NameStart; comment up to the line terminator). Every successfully returned StringValue token is either a quoted string of the grammar "
                       "`\"` StringCharacter* `\"` (StringCharacter = any char but `\"`, `\\`, LF, CR | `\\u` + exactly 4 hex digits whose value is not a surrogate (D800..DFFF: the documented exception -- such escapes are rejected) | `\\` + EscapedCharacter; written as a left-linear grammar "
                       "q_open / q_body / q_backslash / q_unicode over the consumed prefix) or starts and ends with `\"\"\"`; Cursor::done returns Ok iff no error was recorded for the token. "
                       "Unit lexer_numbers (a second, lighter pass over the same extracted advance / eof) proves the converse for numbers -- `0e5`, `1.5e+3`, `-0`, `12,` can never be rejected -- and that an error "
                       "recorded for one token cannot leak into the next. Unit lexer_strings (a third light pass) proves the converse for quoted strings: an error item that starts with a quote has no prefix, itself included, that is a "
                       "complete quoted StringValue of the grammar (so no valid literal is ever rejected and the lexer never runs past a valid literal's closing quote, except that `\"\"` followed by a quote opens a block string); "
                       "the grammar facts are lemmas over the shared string grammar: the five prefix classes are pairwise disjoint (the automaton is deterministic), viability is prefix-closed, every error site leaves the grammar. Kani proves for every char value that the lookup tables (Punctuator kinds, NameStart) and the character classes equal the October 2021 tables; these are the contracts "
                       "the Verus unit assumes for lookup::*.",
        "assumptions": ["Cursor's primitives bump / eatc / current_str / prev_str / drain / add_err / new (lexer/cursor.rs) are no longer assumed: unit `cursor` proves their extracted bodies against exactly the contracts the state machine's proof uses (shared clause lists), with a representation invariant tying index / offset / pending / the CharIndices iterator to the ghost model. Assumed instead: std's documented behaviour of CharIndices::next, str::len, byte-range slicing / str::get on char boundaries (shims)",
                        "the representation invariant holds whenever a primitive is called: established by Cursor::new, preserved by every primitive (proved), and nothing else writes the fields (frame check cursor_fields_written_only_by_primitives)",
                        "`&self.source[a..b]` is rewritten to str_slice(self.source, a, b) whose precondition is 'a <= b, both char boundaries' (std semantics of str slicing, assumed)",
                        "u32::from_str_radix(s, 16) is Ok(the value of the digits) for 1..=8 hex digits; char::from_u32 is Some exactly for non-surrogate values <= 0x10FFFF (std documentation, assumed)"],
        "not_decided": ["block strings: only the `\"\"\"` delimiters are proved, not the BlockStringCharacter grammar (where the closing delimiter may and may not appear)",
                        "the converse direction (an error is reported ONLY if the input is not a sequence of valid tokens) is proved for NUMBERS (unit lexer_numbers: an error on text starting with a digit or `-` means the text is no prefix of any number and not a complete number that may be followed by the offending char) and for QUOTED STRINGS (unit lexer_strings); for block strings, names, punctuators and the start state (`Unexpected character`) it is not decided",
                        "byte offsets reported in Token::index / Error::index", "the documented exception for braced / surrogate-pair escapes"],
    },
    "C21": {
        "level": "proof",
        "kani": ["apollo-compiler/validation.rs"],
        "verus": ["linecol", "input_cycles", "fragment_cycles", "directive_cycles"],
        "technique": "Kani/CBMC, loop-free harness over all usize triples on the real recursion guard; Verus contracts on the extracted line / column lookup (unbounded)",
        "explanation": "KERNEL ONLY: the recursion guard every recursive validator uses: DepthGuard::increment errs iff value+1 > limit, tracks the high-water mark, "
                       "and dropping the guard restores the depth (all usize values). And the position lookup behind every rendered or serialized diagnostic (unit linecol, shared with C11): "
                       "SourceFile::get_line_column / get_line_column_range and SourceSpan::line_column(_range) index the source bytes within bounds and never overflow, for every text and every offset "
                       "(a text that ends in a bare CR, an offset at or past the end). And the search for circular input-object references (unit input_cycles: FindRecursiveInputValue::{input_value_definition, input_object_definition, check}): "
                       "for every schema it never pushes a name that is already on the path (RecursionGuard::push's debug_assert: a panic in debug builds, unbounded recursion in release builds), and the mutual recursion terminates -- "
                       "its depth is bounded by the recursion limit, however the input objects refer to each other. The same for the search for self-spreading fragments (unit fragment_cycles: detect_fragment_cycles): no double push, and termination -- "
                       "structurally through fields and inline fragments, by the path limit (100) through fragment spreads -- for every document. And for the search for self-referential directive definitions (unit directive_cycles: the seven mutually recursive functions of FindRecursiveDirective, two guards): "
                       "no double push on either path, both paths restored; its termination is NOT proved (for built-in types the type path is not extended).",
        "not_decided": ["the main clause: no panic / stack overflow across build, validate, serialize, introspect, render for every input text",
                        "RecursionGuard / RecursionStack themselves are a model in unit input_cycles (written from validation/mod.rs: path + limit; push fails beyond the limit; the guard's Drop pops): their bodies are not verified (a struct holding `&mut` plus Drop)", "termination of the directive-cycle search; variable / other users of RecursionGuard and that cycles are REPORTED exactly when they exist", "diagnostics sorted by position (std sort_by_key)"],
    },
    "C23": {
        "level": "proof",
        "verus": ["coordinate", "coordinate_lookup"],
        "kani": ["apollo-compiler/coordinate.rs"],
        "frame": ["coordinate_display_formats"],
        "technique": "Verus contracts on the five extracted from_str bodies against existential grammar forms over Seq<char> (unbounded); bounded Kani harnesses tie the shims to the real code",
        "explanation": "Verus proves for every string of any length that TypeCoordinate / TypeAttributeCoordinate / FieldArgumentCoordinate / DirectiveCoordinate / "
                       "DirectiveArgumentCoordinate::from_str return Ok iff the string has the form Name | Name.Name | Name.Name(Name:) | @Name | @Name(Name:), and that the parsed "
                       "component names are exactly the substrings (input == ty + '.' + field + '(' + argument + ':)' etc.), so printing with the Display format strings "
                       "(checked syntactically) gives back the input. Lookup (unit coordinate_lookup): Verus proves for every schema (types, fields, enum values, input fields, "
                       "directive definitions and argument lists as maps / sequences keyed by the names' text) that every lookup / lookup_ref / lookup_field / lookup_input_field / lookup_enum_value of the five "
                       "coordinate kinds returns Ok iff the schema has an element with exactly those names, returns exactly that element (the entry of that map under that key; the first argument definition "
                       "with that name), and otherwise an error naming the missing component. Bounded stand-ins (Kani, short strings over a class alphabet, not counted as proved): the same iff on the real "
                       "code including the real Name::try_from. SchemaCoordinate::from_str (the dispatch `.map(..).or_else(..)` over the five parsers; closures kept, their contracts spelled out by a listed rewrite; Result::or_else by its std definition) "
                       "is Ok exactly for the five forms and returns the variant of that form with those components, for every string.",
        "assumptions": ["str::split_once(char) / strip_prefix(char) behave as documented (external_body free functions after a listed method->function rewrite)",
                        "&str values with equal characters are equal (axiom_str_ext; what a string-literal pattern compares)",
                        "Name::try_from(&str) is Ok iff the Name grammar holds and keeps the text (proved for Name::new in unit `name`; TryFrom<&str> forwards to it)"],
        "not_decided": ["Display impls beyond the syntactic check of their format strings",
                        "SchemaCoordinate::lookup's dispatch over the five kinds (`.map(Into::into)` over From impls: trait function values, outside Verus)",
                        "IndexMap::get / argument_by_name behave as maps / first-match search keyed by the name's text (shim contracts)"],
    },
    "C01": {
        "level": "proof",
        "verus": ["parser_core", "limits", "lexer", "lexer_next", "cursor"],
        "frame": ["peek_while_is_the_plain_loop", "only_lexer_next_makes_limit_errors"],
        "explanation": "Verus proves on the extracted lexer state machine (termination, cursor preconditions) and on the WHOLE extracted parser -- the 26 Parser primitives, all 66 grammar functions of parser/grammar/*.rs "
                       "including document() and select_definition, and the entry points Parser::parse / parse_type / parse_selection_set: no panic (pop's expect is unreachable: every caller has a "
                       "look-ahead token; push_ignored's unreachable!() is unreachable by the struct invariant; unreachable!() arms of the entry points; no arithmetic overflow "
                       "in LimitTracker); termination (next_token, skip_ignored and the recursion of ty::parse decrease a lexer measure); every repetition loop of the grammar (the inlined peek_while / peek_while_kind / parse_separated_list "
                       "loops, 17 of them, and document()'s definition loop) strictly consumes input on every iteration that continues -- for every input, which is what the combinators' debug assertion "
                       "'iteration must advance parsing' demands -- so parsing terminates; the mutual recursion selection_set -> selection -> field / inline_fragment -> selection_set and value -> list_value / object_value -> value "
                       "decreases (remaining input, rank); recursion depth is bounded by the recursion limit; recursion bookkeeping is balanced (document()'s assert_eq! on it is proved, not assumed); "
                       "expect_end_of_input adds nothing to the tree after the root node was closed.",
        "assumptions": ['the Lexer contract in the parser_core prelude (items carry the remaining text in order; a measure decreases per item; None only after the limit or at the end; the EOF token is empty and comes when the text is used up; a `{` token is the text "{") is PROVED for the real Lexer::next / Lexer::new in unit `lexer_next`, from the contract of Cursor::advance that unit `lexer` proves; the clause texts are single Python constants shared by the assuming and the proving unit (assume/guarantee by identical text); the primitives of Cursor are proved in unit `cursor`; what remains assumed at the bottom is std (CharIndices::next, str slicing on char boundaries) and "advance never yields a limit error" (frame check)', 'Name tokens produced by the lexer satisfy the Name grammar, so grammar::name::validate_name never reports (proved for Cursor::advance in unit lexer; validate_name itself is a no-op shim here)', 'Parser::peek_n / peek_token_n / peek_data_n (iterator chain over a CLONE of the lexer, `&self`): results unconstrained, parser state untouched', 'rowan GreenNodeBuilder: token() appends text, start/finish/wrap add none; Drop of NodeGuard has no spec', 'recursion limit < usize::MAX'],
        "not_decided": ["the three-unit chain lexer -> lexer_next -> parser_core is composed by shared clause text (each unit assumes exactly the text the previous one discharges), not inside one Verus run",
                        "the closure combinators peek_while / peek_while_kind / parse_separated_list are verified in beta-reduced form at each call site (frame check pins their bodies), not as generic functions; their debug_assert!(before != current_token) is replaced by the stronger 'fuel strictly decreases'",
                        "rowan's own assertions (single root: was the panic fixed in d0c8925; not visible to a contract), actual stack size per frame", "apollo_compiler::parser wrappers"],
    },
    "C02": {
        "level": "other",   # deductive verification, but one obligation is a KNOWN FINDING (genuine defect): discharged < obligations, so not a proof-level record
        "verus": ["parser_core", "lexer", "lexer_next", "cursor"],
        "frame": ["peek_while_is_the_plain_loop", "only_lexer_next_makes_limit_errors"],
        "explanation": "Contract-based deductive verification (Verus) with ONE KNOWN FINDING, hence not claimed at proof level. Conserved quantity all_text = tree text + queued tokens + look-ahead token + unread input: Verus proves every parser primitive "
                       "and EVERY grammar function (all of parser/grammar/*.rs) conserves it in order (nothing lost, nothing duplicated, nothing reordered); document() is proved to end with the queue flushed, the look-ahead "
                       "empty (EOF) and the lexer exhausted unless the token limit was hit; and Parser::parse is proved to return a tree whose text IS the input when no token limit was hit (in-body obligation) and a prefix of it always (postcondition). ty::parse violates it at one exit (known finding: the token "
                       "after `[` is dropped when no type starts there).",
        "assumptions": ['the Lexer contract in the parser_core prelude (items carry the remaining text in order; a measure decreases per item; None only after the limit or at the end; the EOF token is empty and comes when the text is used up; a `{` token is the text "{") is PROVED for the real Lexer::next / Lexer::new in unit `lexer_next`, from the contract of Cursor::advance that unit `lexer` proves; the clause texts are single Python constants shared by the assuming and the proving unit (assume/guarantee by identical text); the primitives of Cursor are proved in unit `cursor`; what remains assumed at the bottom is std (CharIndices::next, str slicing on char boundaries) and "advance never yields a limit error" (frame check)', 'Name tokens produced by the lexer satisfy the Name grammar, so grammar::name::validate_name never reports (proved for Cursor::advance in unit lexer; validate_name itself is a no-op shim here)', 'Parser::peek_n / peek_token_n / peek_data_n (iterator chain over a CLONE of the lexer, `&self`): results unconstrained, parser state untouched', 'rowan GreenNodeBuilder: token() appends text, start/finish/wrap add none; Drop of NodeGuard has no spec', 'recursion limit < usize::MAX'],
        "not_decided": ["UTF-8 boundaries of token ranges (token data are &str slices: Rust's type invariant, not proved)", "the lexer half of losslessness is proved in unit `lexer` and assumed here (see assumptions)"],
    },
    "C07": {
        "level": "proof",
        "verus": ["parser_core", "parse_common", "diagnostics"],
        "frame": ["peek_while_is_the_plain_loop"],
        "explanation": "Verus proves for parse_type, for every token stream: the returned tree has no error only if the kinds of the significant tokens added to the tree "
                       "are exactly one Type of the grammar Type :: Name | [ Type ] | Name ! | [ Type ] ! (ghost sequence of significant token kinds; ty::parse's postcondition "
                       "type_grammar, expect's 'consumes the expected token or reports'), and the look-ahead after skipping ignored tokens is EOF (nothing else is left); a missing type "
                       "is always reported. For parse_selection_set the end-of-input clause is proved, and that an error-free field set has balanced braces "
                       "(field_set / selection_set / every production below them: no error means the open-bracket counts of `{` `(` `[` are unchanged), so `a }` or `{ a` cannot be accepted. The tree reports exactly the parser's errors. "
                       "Compiler side (unit parse_common): every parser error whose offset fits 32 bits becomes exactly one diagnostic, in order (SyntaxError / ParserLimit), so a syntax error is never dropped on the way to "
                       "apollo_compiler::parser::parse_type / parse_field_set, which return Err iff the diagnostic list is non-empty.",
        "assumptions": ['the Lexer contract in the parser_core prelude (items carry the remaining text in order; a measure decreases per item; None only after the limit or at the end; the EOF token is empty and comes when the text is used up; a `{` token is the text "{") is PROVED for the real Lexer::next / Lexer::new in unit `lexer_next`, from the contract of Cursor::advance that unit `lexer` proves; the clause texts are single Python constants shared by the assuming and the proving unit (assume/guarantee by identical text); the primitives of Cursor are proved in unit `cursor`; what remains assumed at the bottom is std (CharIndices::next, str slicing on char boundaries) and "advance never yields a limit error" (frame check)', 'Name tokens produced by the lexer satisfy the Name grammar, so grammar::name::validate_name never reports (proved for Cursor::advance in unit lexer; validate_name itself is a no-op shim here)', 'Parser::peek_n / peek_token_n / peek_data_n (iterator chain over a CLONE of the lexer, `&self`): results unconstrained, parser state untouched', 'rowan GreenNodeBuilder: token() appends text, start/finish/wrap add none; Drop of NodeGuard has no spec', 'recursion limit < usize::MAX'],
        "not_decided": ["that the tokens consumed by parse_selection_set form exactly ONE selection set (selection() and everything below it is now verified for conservation / termination, but the selection GRAMMAR is not specified)",
                        "that parse_type / parse_field_set call errors.into_result() on the list parse_common filled (the step itself -- Ok iff the list is empty -- is proved in unit diagnostics; the two-line wrappers use generic `impl Into<String>` / `AsRef<Path>` parameters and a closure, not extracted)"],
    },
}
